------------------------------- MODULE Types -------------------------------
(***************************************************************************)
(* C07 "The typechecker accepts exactly the well-typed programs".          *)
(*                                                                         *)
(* The documented type system of Halt is Defeat as TLA+ operators over     *)
(* EXPRESSION DESCRIPTORS, plus a small state machine that enumerates      *)
(* (syntactic position, expression(s), target type) cases and prints for   *)
(* every case the documented fate of the program that exercises it:        *)
(*   "accept"   follows every typing rule: hidc must accept it             *)
(*   "reject"   breaks a typing rule: hidc must raise a CompilerError       *)
(*   "dontcare" the README is silent and two readings are defensible:      *)
(*              exercised for totality only (no crash), never a violation  *)
(* and, for calls, the 1-based index (declaration order, builtins first)   *)
(* of the overload that must be bound (0 = no overload, -1 = dontcare).    *)
(*                                                                         *)
(* Bound to hidc/ast/*.py by hv/checks/c07.py (spec -> code replay): TLC   *)
(* prints one tuple per case                                               *)
(*   <<"HV", "position|target|src;..|type;..|verdict|overload|rule">>      *)
(* (caseId = position|target|sources; one flat string per case, section 9) *)
(* Python (hv/types_render.py) puts the source fragments into a complete   *)
(* program whose prelude declares exactly the atoms of AtomTab below, runs *)
(* parse(...).evaluate(Environment.empty()) of the working tree and        *)
(* compares accept/reject and the bound overload.  Python holds no typing  *)
(* rule; the correspondence "source fragment <-> descriptor" is AtomTab +  *)
(* Src + the statement templates (trusted binding, listed in the check).   *)
(*                                                                         *)
(* STRUCTURE (mirrors the code)                                            *)
(*  descriptor        an evaluated Expression: its .type, what coercible() *)
(*                    answers (shrink, flex, locked, els), whether it is   *)
(*                    an assignable non-const lookup (asg)                 *)
(*  Coercible/Castable   Expression.coercible / Expression.cast lattice    *)
(*  ArithD CmpD EqD LogD SpecD IndexD LenD CastD ArrLitD                   *)
(*                    <Node>.evaluate of operators.py / expressions.py     *)
(*  Desc(r, n)        bottom-up evaluate of a syntax node                  *)
(*  Decl/Assign/IncAssign/Return/Cond/ArrInit verdicts   statements.py,    *)
(*                    blocks.py                                            *)
(*  Bind              FuncCall.evaluate overload resolution                *)
(*  scope machine     Declaration.evaluate + VarTable (NameStep)           *)
(*  signature machine Environment.add_funcs (FuncStep)                     *)
(*                                                                         *)
(* POSITIONS (field 1 of a case line; <e> = expression of the universe,    *)
(*  T = target type; the statement stands in the body of the test function *)
(*  unless said otherwise; cfg Types_<family>_<tier>.cfg)                  *)
(*  family expr                                                            *)
(*   stmt `<e>;`  decl `T x = <e>;`  forinit `for (T x = <e>; t; ) {}`     *)
(*   nesteddecl (in else/while)  trydecl (try body and undo handler of a   *)
(*   you-function)  deadcode `return; T x = <e>;`  arrinit `T x[<e>];`     *)
(*   assign `<l> = <e>;`  inc `<l> op= <e>;`  forstep (for-step position)  *)
(*   arg `f(<e>)` for `empty f(T p0)`  sleep `sleep(<e>)`  write           *)
(*   `write(<e>)` (+ overload index)  ret `return <e>;` in `T g(..)`       *)
(*   noret `return;` / no return in `T g(..)`  if / while / for conditions *)
(*   operand `<e> op <o>`, `<o> op <e>`  unary  spec `<e> ?? <o>` (in a    *)
(*   you-function)  specdecl `T x = <o> ?? <e>;`  idxsrc `<e>[<o>]`        *)
(*   idxidx `<o>[<e>]`  len `<e>.length`  elem `[<e>, <o>]`  is `<e> is T` *)
(*  family call                                                            *)
(*   overload / overload2: <= 3 user overloads `f` (one / two parameters)  *)
(*   in every declaration order x argument(s); arity; writeext: a user     *)
(*   overload of the builtin write; undeclared function                    *)
(*  family struct                                                          *)
(*   names (scope machine)  funcs (signature machine)  typesyntax          *)
(*   gdecl `T gx = <e>;` / garrinit `T gx[<e>];` at global scope           *)
(*                                                                         *)
(* RULES  [R] = README.rst (section), [T] = pinned by tests/test_typecheck *)
(*        [C] = README silent, evident intent of the code                  *)
(*  T1 [R Types] scalars int byte bool string; arrays of scalars, never    *)
(*     nested; `empty` only as a return type; array constness is part of   *)
(*     the type, scalar constness an attribute of the variable.            *)
(*  T2 [R Types] coercions: byte -> int; string -> const byte[];           *)
(*     T[] -> const T[] ("Arrays and strings": non-const array may be      *)
(*     coerced to const, not vice versa); nothing else.                    *)
(*  T3 [R Types] numeric literals are int but coercible to byte; char      *)
(*     literals byte; arithmetic takes byte|int, yields int, and is        *)
(*     coercible to byte iff all operands are coercible to byte.  A        *)
(*     non-literal int (variable, call result, length, const int variable  *)
(*     [T test_coercion: `const int x = 10; byte y = x;` is bad]) is not.  *)
(*  T4 [R Types] array literal: type = const array of the first element    *)
(*     type all entries coerce to (none: no type, rejected); coercible to  *)
(*     any array type all entries coerce to, const or not.  `[]` has no    *)
(*     element type: coercible to every array type, ambiguous when indexed.*)
(*     Entries must be scalar values: an array entry is a nested array     *)
(*     [R], an entry of type empty is an empty-typed array [R: empty only  *)
(*     as a return type].                                                  *)
(*  T5 [R Types, "Allowed explicit type casts"] (byte|bool) is int;        *)
(*     (int|bool) is byte; (int|byte|string|array) is bool; string is      *)
(*     byte[] (const byte[]); array literal is T[] iff all entries cast to *)
(*     T, keeps const flexibility, element type then fixed [T              *)
(*     test_func_calls].  [C] identity casts (x is <type of x>) are legal; *)
(*     `a is T[]` for an array variable a of element type T is legal and   *)
(*     yields a const view that coerces back to T[] iff a is non-const     *)
(*     (Volatile in expressions.py).  Everything else is an invalid cast.  *)
(*  T6 [T test_coercion `x += 1 is int` bad; code comment "should          *)
(*     (2 is int) be? I think not"] an explicit cast of a LITERAL to int   *)
(*     is a plain int (not byte-coercible).  byte -> int casts give plain  *)
(*     ints.                                                               *)
(*  T7 [R Arrays and strings; Types] assignability: const variables, array *)
(*     variables (the reference), elements of const arrays and of strings  *)
(*     ("Strings are similar to const byte[]"; property text) are not      *)
(*     assignable; nothing but a variable or an element is.  `x op= e` is  *)
(*     typed as `x = x op e` [R Operators "augmented assignments"; C].     *)
(*  T8 declarations: initialiser coerces to the declared type [R].         *)
(*     [T test_const_arrays] `const T[] a = <non-const array reference>`   *)
(*     is rejected (also through a view), while passing one to a const     *)
(*     parameter is fine [R].  `T a[n]`: n coerces to int, T scalar and    *)
(*     not const [T].                                                      *)
(*  T9 [T test_shadowing/test_redecl; C] names: use of an undeclared name  *)
(*     is rejected; a local/parameter may not redeclare a name of the same *)
(*     or an enclosing LOCAL scope (parameters included); it may shadow a  *)
(*     global; a global may not be redeclared; sibling scopes are          *)
(*     independent.                                                        *)
(*  T10 [R Key features "function overloading"; T test_redecl] functions:  *)
(*     same name (flavour included) and same parameter types (scalar const *)
(*     is not part of a type, array const is) = duplicate, rejected, also  *)
(*     against builtins; return type is not part of the signature.         *)
(*  T11 [T test_return_type; C] return: value in an empty function, no     *)
(*     value in a non-empty one, value not coercible to the return type    *)
(*     are rejected; arrays cannot be returned [R] (no array return type). *)
(*  T12 [T test_func_calls; property text] call binding: the overload      *)
(*     whose parameter types equal the argument types; else the first      *)
(*     declared (builtins first: write(string), write(const byte[]),       *)
(*     write(int), write(byte), write(bool)) of the same arity every       *)
(*     argument coerces to; else rejected.                                 *)
(*  T13 operators [R Types/Operators; C operators.py header]: arithmetic   *)
(*     and comparisons take int-coercible operands; == != two bools or two *)
(*     int-coercibles; and/or/not anything castable to bool; `??` left     *)
(*     int|byte|bool, right coercible to left's type, result has left's    *)
(*     type; index: array or string source, int-coercible index; .length   *)
(*     on arrays and strings (also on `[]` [C]); conditions of if/while/   *)
(*     for are CAST to bool [C blocks.py], so `if (arr)` is legal.         *)
(*                                                                         *)
(* DONTCARE (a case is dontcare iff the readings below disagree on it)     *)
(*  D1 keepArith: `(b + b) is int` - identity cast of a byte-coercible     *)
(*     NON-literal arithmetic value: stays byte-coercible (hidc: identity  *)
(*     cast returns the node unchanged) or becomes a plain int (T6 read    *)
(*     strictly).                                                          *)
(*  D2 boolLit: `true is int` (any compile-time bool) is byte-coercible    *)
(*     (hidc folds it to a fresh numeric literal) or a plain int.          *)
(*  D3 specFold: `5 ?? 6` with two literals is byte-coercible (hidc folds  *)
(*     it to its left literal) or a plain int.                             *)
(*  D4 castUnres: `[i, t] is byte[]` - an array literal that has no type   *)
(*     of its own but whose entries all cast to T: valid by the letter of  *)
(*     README T5, rejected by hidc (the literal is typed before the cast). *)
(*  D5 `x is const T[]`, const return types: not expressible in the        *)
(*     grammar; README silent (TypeSyntax family).                         *)
(*  D6 an ILL-typed statement after `return;` (unreachable): hidc drops    *)
(*     unreachable statements before typechecking them (blocks.py), the    *)
(*     README does not say whether dead code must be well typed.           *)
(***************************************************************************)
EXTENDS Integers, Sequences, FiniteSets, TLC

CONSTANTS Tier,      \* "quick" | "thorough"
          Family     \* "expr" | "call" | "struct"

ASSUME Tier \in {"quick", "thorough"}
ASSUME Family \in {"expr", "call", "struct"}

Quick == Tier = "quick"

-----------------------------------------------------------------------------
(* 1. Types (as their source spelling).  The tables are written out: TLC re-evaluates the body of a *)
(* function constructor at every application, so literal CASEs are much faster than [T \in .. |-> ..]. *)
Scalars == {"int", "byte", "bool", "string"}
MutArrays == {"int[]", "byte[]", "bool[]", "string[]"}
ConstArrays == {"const int[]", "const byte[]", "const bool[]", "const string[]", "const empty[]"}
IsArr(T) == T \in MutArrays \/ T \in ConstArrays
IsConstArr(T) == T \in ConstArrays
El(T) ==
    CASE T \in {"int[]", "const int[]"} -> ("int")
      [] T \in {"byte[]", "const byte[]"} -> ("byte")
      [] T \in {"bool[]", "const bool[]"} -> ("bool")
      [] T \in {"string[]", "const string[]"} -> ("string")
      [] T = "const empty[]" -> ("empty")
      [] OTHER -> (T)
ArrM(el) ==
    CASE el = "int" -> ("int[]") [] el = "byte" -> ("byte[]") [] el = "bool" -> ("bool[]")
      [] el = "string" -> ("string[]")
ArrC(el) ==
    CASE el = "int" -> ("const int[]") [] el = "byte" -> ("const byte[]") [] el = "bool" -> ("const bool[]")
      [] el = "string" -> ("const string[]") [] el = "empty" -> ("const empty[]")

\* A declarator `const int` declares a const VARIABLE of type int (T1).
Strip(D) ==
    CASE D = "const int" -> ("int") [] D = "const byte" -> ("byte") [] D = "const bool" -> ("bool")
      [] D = "const string" -> ("string") [] OTHER -> (D)
\* `e is int[]` means `const int[]` (T5)
IsTarget(T) == IF T \in Scalars THEN T ELSE ArrC(El(T))

-----------------------------------------------------------------------------
(* 2. Descriptors                                                           *)
\*  ok      the expression is well typed
\*  ty      its type
\*  kind    var cvar lit call arith cast view alit unres elem len bool spec error
\*  shrink  type int but coercible to byte (T3)
\*  lit     compile-time literal value (literal, const variable initialised by a literal,
\*          operators over such); only selects the dontcare readings D1-D3
\*  asg     an assignable lookup: non-const scalar variable or element of a non-const array (T7)
\*  flex    const array that also coerces to the non-const type (array literal, view) (T4, T5)
\*  locked  array literal whose element type was fixed by `is T[]` (T5)
\*  els     element descriptors of an array literal
Mk(ty, kind, shrink, lit, asg) ==
    [ok |-> TRUE, ty |-> ty, kind |-> kind, shrink |-> shrink, lit |-> lit, asg |-> asg,
     flex |-> FALSE, locked |-> FALSE, els |-> <<>>]
Bad == [ok |-> FALSE, ty |-> "empty", kind |-> "error", shrink |-> FALSE, lit |-> FALSE, asg |-> FALSE,
        flex |-> FALSE, locked |-> FALSE, els |-> <<>>]

Readings == [keepArith : BOOLEAN, boolLit : BOOLEAN, specFold : BOOLEAN, castUnres : BOOLEAN]
R0 == [keepArith |-> TRUE, boolLit |-> TRUE, specFold |-> TRUE, castUnres |-> FALSE]

(* 2.1 coercion (T2, T3, T4) *)
CoercibleS(d, T) ==        \* d scalar-typed (or empty)
    \/ d.ty = T
    \/ d.ty = "byte" /\ T = "int"
    \/ d.ty = "string" /\ T = "const byte[]"
    \/ d.ty = "int" /\ d.shrink /\ T = "byte"

Coercible(d, T) ==
    IF ~IsArr(d.ty) THEN CoercibleS(d, T)
    ELSE /\ IsArr(T)
         /\ IF d.kind = "alit" /\ ~d.locked
            THEN \A k \in DOMAIN d.els : CoercibleS(d.els[k], El(T))
            ELSE /\ El(T) = El(d.ty)
                 /\ (d.flex \/ IsConstArr(T) \/ ~IsConstArr(d.ty))

IntCo(d) == ~IsArr(d.ty) /\ CoercibleS(d, "int")
ByteCo(d) == ~IsArr(d.ty) /\ CoercibleS(d, "byte")

\* T8: binding a non-const array reference (variable or view of one) to a const array VARIABLE
VolatileBind(d, T) ==
    /\ IsArr(d.ty) /\ IsArr(T) /\ IsConstArr(T)
    /\ d.kind # "alit"
    /\ (~IsConstArr(d.ty) \/ d.kind = "view")

(* 2.2 explicit casts (T5) *)
CastableS(d, T) ==
    \/ d.ty = T
    \/ d.ty \in {"byte", "bool"} /\ T = "int"
    \/ d.ty \in {"int", "bool"} /\ T = "byte"
    \/ d.ty \in {"int", "byte", "string"} /\ T = "bool"
    \/ d.ty = "string" /\ T = "const byte[]"

Castable(d, T) ==          \* T scalar or a CONST array type
    IF ~IsArr(d.ty) THEN CastableS(d, T)
    ELSE IF T = "bool" THEN TRUE
    ELSE IF ~IsArr(T) THEN FALSE
    ELSE IF d.kind = "alit" THEN \A k \in DOMAIN d.els : CastableS(d.els[k], El(T))
    ELSE El(T) = El(d.ty)

CastShrink(r, d, T) ==     \* is the int result of `d is int` still coercible to byte?  (T6, D1, D2)
    IF T # "int" THEN FALSE
    ELSE IF d.ty = "int" THEN (IF d.lit THEN FALSE ELSE d.shrink /\ r.keepArith)
    ELSE IF d.ty = "bool" THEN d.lit /\ r.boolLit
    ELSE FALSE

CastScalarD(r, d, T) ==    \* d scalar, castable to T
    IF IsArr(T) THEN Mk(T, "cast", FALSE, FALSE, FALSE)                  \* string is byte[]
    ELSE Mk(T, "cast", CastShrink(r, d, T), d.lit, FALSE)

CastD(r, d, T) ==
    IF d.kind = "unres"
    THEN (IF r.castUnres /\ IsArr(T) /\ \A k \in DOMAIN d.els : CastableS(d.els[k], El(T))
          THEN [Mk(T, "alit", FALSE, FALSE, FALSE) EXCEPT !.flex = TRUE, !.locked = TRUE,
                   !.els = [k \in DOMAIN d.els |-> CastScalarD(r, d.els[k], El(T))]]
          ELSE Bad)
    ELSE IF ~d.ok \/ ~Castable(d, T) THEN Bad
    ELSE IF ~IsArr(d.ty) THEN CastScalarD(r, d, T)
    ELSE IF T = "bool" THEN Mk("bool", "cast", FALSE, FALSE, FALSE)
    ELSE IF d.kind = "alit"
         THEN [d EXCEPT !.ty = T, !.flex = TRUE, !.locked = TRUE,
                        !.els = [k \in DOMAIN d.els |-> CastScalarD(r, d.els[k], El(T))]]
    ELSE IF IsConstArr(d.ty) /\ d.kind # "view" THEN [d EXCEPT !.asg = FALSE]   \* identity
    ELSE [Mk(T, "view", FALSE, FALSE, FALSE) EXCEPT !.flex = TRUE]               \* const view of a mutable array

(* 2.3 operators (T3, T13) *)
ArithD(a, b) ==
    IF a.ok /\ b.ok /\ IntCo(a) /\ IntCo(b)
    THEN Mk("int", "arith", ByteCo(a) /\ ByteCo(b), a.lit /\ b.lit, FALSE) ELSE Bad
NegD(a) ==
    IF a.ok /\ IntCo(a) THEN Mk("int", "arith", ByteCo(a), a.lit, FALSE) ELSE Bad
CmpD(a, b) ==
    IF a.ok /\ b.ok /\ IntCo(a) /\ IntCo(b) THEN Mk("bool", "bool", FALSE, a.lit /\ b.lit, FALSE) ELSE Bad
EqD(a, b) ==
    IF a.ok /\ b.ok /\ ((a.ty = "bool" /\ b.ty = "bool") \/ (IntCo(a) /\ IntCo(b)))
    THEN Mk("bool", "bool", FALSE, a.lit /\ b.lit, FALSE) ELSE Bad
LogD(a, b) ==
    IF a.ok /\ b.ok /\ Castable(a, "bool") /\ Castable(b, "bool")
    THEN Mk("bool", "bool", FALSE, a.lit /\ b.lit, FALSE) ELSE Bad
NotD(a) ==
    IF a.ok /\ Castable(a, "bool") THEN Mk("bool", "bool", FALSE, a.lit, FALSE) ELSE Bad
SpecD(r, a, b) ==
    IF a.ok /\ b.ok /\ a.ty \in {"int", "byte", "bool"} /\ Coercible(b, a.ty)
    THEN Mk(a.ty, "spec", a.lit /\ b.lit /\ a.shrink /\ r.specFold, a.lit /\ b.lit, FALSE) ELSE Bad
IndexD(s, i) ==
    IF /\ s.ok /\ i.ok
       /\ (IsArr(s.ty) \/ s.ty = "string")
       /\ ~(IsArr(s.ty) /\ El(s.ty) = "empty")         \* `[][0]`: array type is ambiguous (T4)
       /\ IntCo(i)
    THEN Mk(IF IsArr(s.ty) THEN El(s.ty) ELSE "byte", "elem", FALSE, FALSE,
            IsArr(s.ty) /\ ~IsConstArr(s.ty))             \* string elements are not assignable (T7)
    ELSE Bad
LenD(s) ==
    IF s.ok /\ (IsArr(s.ty) \/ s.ty = "string") THEN Mk("int", "len", FALSE, FALSE, FALSE) ELSE Bad

(* 2.4 array literals (T4) *)
ArrLitD(ds) ==
    IF \E k \in DOMAIN ds : ~ds[k].ok THEN Bad
    ELSE IF ds = <<>>
         THEN [Mk("const empty[]", "alit", FALSE, FALSE, FALSE) EXCEPT !.flex = TRUE]
    ELSE IF \E k \in DOMAIN ds : IsArr(ds[k].ty) THEN Bad                 \* nested array
    ELSE IF \E k \in DOMAIN ds : ds[k].ty = "empty" THEN Bad              \* empty-typed entry
    ELSE LET fits == {k \in DOMAIN ds : \A j \in DOMAIN ds : CoercibleS(ds[j], ds[k].ty)}
         IN  IF fits = {}
             THEN [Bad EXCEPT !.kind = "unres", !.els = ds]                   \* no type (but see D4)
             ELSE LET k0 == CHOOSE k \in fits : \A k2 \in fits : k <= k2
                  IN  [Mk(ArrC(ds[k0].ty), "alit", FALSE, FALSE, FALSE) EXCEPT !.flex = TRUE, !.els = ds]

-----------------------------------------------------------------------------
(* 3. Syntax nodes, their source text and their descriptors                 *)
N0(s) == [op |-> "atom", nm |-> s, kids |-> <<>>]
N1(op, a) == [op |-> op, nm |-> "", kids |-> <<a>>]
N2(op, a, b) == [op |-> op, nm |-> "", kids |-> <<a, b>>]
NIs(a, T) == [op |-> "is", nm |-> T, kids |-> <<a>>]
NLit(ks) == [op |-> "alit", nm |-> "", kids |-> ks]
None == N0("")

ArithOps == {"add", "sub", "mul", "div", "mod"}
CmpOps == {"lt", "le", "gt", "ge"}
EqOps == {"eq", "ne"}
LogOps == {"and", "or"}
BinOps == ArithOps \cup CmpOps \cup EqOps \cup LogOps \cup {"spec"}
OpTxt(o) == (
    CASE o = "add" -> ("+") [] o = "sub" -> ("-") [] o = "mul" -> ("*") [] o = "div" -> ("/")
      [] o = "mod" -> ("%") [] o = "lt" -> ("<") [] o = "le" -> ("<=") [] o = "gt" -> (">")
      [] o = "ge" -> (">=") [] o = "eq" -> ("==") [] o = "ne" -> ("!=") [] o = "and" -> ("and")
      [] o = "or" -> ("or") [] o = "spec" -> ("??"))

\* The atoms: exactly what the prelude of the rendered program declares
\*   globals   int gi = 7; const int gci = 9; byte gb = 2; int[] gai = [1, 2]; const int[] gcai = [3, 4];
\*   functions int fi(), byte fb(), bool ft(), string fs(), empty fe()
\*   parameters of the test function
\*             int i, byte b, bool t, string s, int[] ai, const int[] cai, byte[] ab, const byte[] cab,
\*             bool[] at, const bool[] cat, string[] astr, const string[] castr, const int pci
\*   locals    const int ci = 5; const byte cb = 'c'; const bool ct = true; const string cs = "k";
\*             const int cni = i;
Var(ty) == Mk(ty, "var", FALSE, FALSE, ~IsArr(ty))
CVar(ty, lit) == Mk(ty, "cvar", FALSE, lit, FALSE)
AtomTab == <<
    <<"i", Var("int")>>, <<"b", Var("byte")>>, <<"t", Var("bool")>>, <<"s", Var("string")>>,
    <<"ai", Var("int[]")>>, <<"cai", Var("const int[]")>>, <<"ab", Var("byte[]")>>,
    <<"cab", Var("const byte[]")>>, <<"at", Var("bool[]")>>, <<"cat", Var("const bool[]")>>,
    <<"astr", Var("string[]")>>, <<"castr", Var("const string[]")>>,
    <<"ci", CVar("int", TRUE)>>, <<"cb", CVar("byte", TRUE)>>, <<"ct", CVar("bool", TRUE)>>,
    <<"cs", CVar("string", TRUE)>>, <<"cni", CVar("int", FALSE)>>, <<"pci", CVar("int", FALSE)>>,
    <<"gi", Var("int")>>, <<"gci", CVar("int", TRUE)>>, <<"gb", Var("byte")>>,
    <<"gai", Var("int[]")>>, <<"gcai", Var("const int[]")>>,
    <<"5", Mk("int", "lit", TRUE, TRUE, FALSE)>>, <<"300", Mk("int", "lit", TRUE, TRUE, FALSE)>>,
    <<"0", Mk("int", "lit", TRUE, TRUE, FALSE)>>,
    <<"'a'", Mk("byte", "lit", FALSE, TRUE, FALSE)>>, <<"\"str\"", Mk("string", "lit", FALSE, TRUE, FALSE)>>,
    <<"true", Mk("bool", "lit", FALSE, TRUE, FALSE)>>,
    <<"fi()", Mk("int", "call", FALSE, FALSE, FALSE)>>, <<"fb()", Mk("byte", "call", FALSE, FALSE, FALSE)>>,
    <<"ft()", Mk("bool", "call", FALSE, FALSE, FALSE)>>, <<"fs()", Mk("string", "call", FALSE, FALSE, FALSE)>>,
    <<"fe()", Mk("empty", "call", FALSE, FALSE, FALSE)>> >>
AtomNames == {AtomTab[k][1] : k \in DOMAIN AtomTab}
AtomDesc(a) ==             \* = the entry of AtomTab (checked by LatticeOK); a literal CASE for speed
    CASE a = "i" -> (Var("int")) [] a = "b" -> (Var("byte")) [] a = "t" -> (Var("bool"))
      [] a = "s" -> (Var("string")) [] a = "ai" -> (Var("int[]")) [] a = "cai" -> (Var("const int[]"))
      [] a = "ab" -> (Var("byte[]")) [] a = "cab" -> (Var("const byte[]")) [] a = "at" -> (Var("bool[]"))
      [] a = "cat" -> (Var("const bool[]")) [] a = "astr" -> (Var("string[]"))
      [] a = "castr" -> (Var("const string[]"))
      [] a \in {"ci", "gci"} -> (CVar("int", TRUE)) [] a = "cb" -> (CVar("byte", TRUE))
      [] a = "ct" -> (CVar("bool", TRUE)) [] a = "cs" -> (CVar("string", TRUE))
      [] a \in {"cni", "pci"} -> (CVar("int", FALSE))
      [] a = "gi" -> (Var("int")) [] a = "gb" -> (Var("byte")) [] a = "gai" -> (Var("int[]"))
      [] a = "gcai" -> (Var("const int[]"))
      [] a \in {"5", "300", "0"} -> (Mk("int", "lit", TRUE, TRUE, FALSE))
      [] a = "'a'" -> (Mk("byte", "lit", FALSE, TRUE, FALSE))
      [] a = "\"str\"" -> (Mk("string", "lit", FALSE, TRUE, FALSE))
      [] a = "true" -> (Mk("bool", "lit", FALSE, TRUE, FALSE))
      [] a = "fi()" -> (Mk("int", "call", FALSE, FALSE, FALSE))
      [] a = "fb()" -> (Mk("byte", "call", FALSE, FALSE, FALSE))
      [] a = "ft()" -> (Mk("bool", "call", FALSE, FALSE, FALSE))
      [] a = "fs()" -> (Mk("string", "call", FALSE, FALSE, FALSE))
      [] a = "fe()" -> (Mk("empty", "call", FALSE, FALSE, FALSE))

RECURSIVE Desc(_, _)
Desc(r, n) ==
    LET K(j) == Desc(r, n.kids[j]) IN
    CASE n.op = "atom" -> (AtomDesc(n.nm))
      [] n.op \in ArithOps -> (ArithD(K(1), K(2)))
      [] n.op \in {"neg", "pos"} -> (NegD(K(1)))
      [] n.op \in CmpOps -> (CmpD(K(1), K(2)))
      [] n.op \in EqOps -> (EqD(K(1), K(2)))
      [] n.op \in LogOps -> (LogD(K(1), K(2)))
      [] n.op = "not" -> (NotD(K(1)))
      [] n.op = "spec" -> (SpecD(r, K(1), K(2)))
      [] n.op = "idx" -> (IndexD(K(1), K(2)))
      [] n.op = "len" -> (LenD(K(1)))
      [] n.op = "is" -> (CastD(r, K(1), IsTarget(n.nm)))
      [] n.op = "alit" -> (ArrLitD([j \in DOMAIN n.kids |-> Desc(r, n.kids[j])]))

RECURSIVE Src(_)
Postfix(n) ==              \* source of n as the operand of a postfix `[..]` / `.length`
    IF n.op = "atom" /\ n.nm \in {"5", "300", "0"} THEN "(" \o n.nm \o ")" ELSE Src(n)
RECURSIVE Join(_, _)
Join(ks, j) == IF j > Len(ks) THEN "" ELSE (IF j > 1 THEN ", " ELSE "") \o Src(ks[j]) \o Join(ks, j + 1)
Src(n) ==
    CASE n.op = "atom" -> (n.nm)
      [] n.op \in BinOps -> ("(" \o Src(n.kids[1]) \o " " \o OpTxt(n.op) \o " " \o Src(n.kids[2]) \o ")")
      [] n.op = "neg" -> ("(-" \o Src(n.kids[1]) \o ")")
      [] n.op = "pos" -> ("(+" \o Src(n.kids[1]) \o ")")
      [] n.op = "not" -> ("(not " \o Src(n.kids[1]) \o ")")
      [] n.op = "idx" -> (Postfix(n.kids[1]) \o "[" \o Src(n.kids[2]) \o "]")
      [] n.op = "len" -> (Postfix(n.kids[1]) \o ".length")
      [] n.op = "is" -> ("(" \o Src(n.kids[1]) \o " is " \o n.nm \o ")")
      [] n.op = "alit" -> ("[" \o Join(n.kids, 1) \o "]")

RECURSIVE Sensitive(_)
Sensitive(n) == n.op \in {"is", "spec"} \/ \E j \in DOMAIN n.kids : Sensitive(n.kids[j])
Rs(ns) == IF \E n \in ns : Sensitive(n) THEN Readings ELSE {R0}

Tri(ns, P(_)) ==           \* three-valued verdict of predicate P over the readings that matter for ns
    LET rs == Rs(ns) IN
    IF \A r \in rs : P(r) THEN "accept" ELSE IF \A r \in rs : ~P(r) THEN "reject" ELSE "dontcare"

\* The rule an ill-typed expression breaks (a stable label for reports; reading R0): that of its first
\* ill-typed sub-expression, else that of the node itself.
RECURSIVE WhyBad(_)
WhyBad(n) ==
    LET bad == {j \in DOMAIN n.kids : ~Desc(R0, n.kids[j]).ok}
        K(j) == Desc(R0, n.kids[j])
    IN  IF bad # {} THEN WhyBad(n.kids[CHOOSE j \in bad : \A j2 \in bad : j <= j2])
        ELSE CASE n.op = "alit" ->
                    (IF \E j \in DOMAIN n.kids : IsArr(K(j).ty) THEN "alit_nested"
                     ELSE IF \E j \in DOMAIN n.kids : K(j).ty = "empty" THEN "alit_empty_entry"
                     ELSE "alit_unresolvable")
               [] n.op = "is" -> ("cast_invalid")
               [] n.op = "idx" ->
                    (IF ~(IsArr(K(1).ty) \/ K(1).ty = "string") THEN "index_source"
                     ELSE IF IsArr(K(1).ty) /\ El(K(1).ty) = "empty" THEN "index_ambiguous"
                     ELSE "index_index")
               [] n.op = "len" -> ("length_source")
               [] n.op \in ArithOps \cup {"neg", "pos"} -> ("arith_operand")
               [] n.op \in CmpOps -> ("cmp_operand")
               [] n.op \in EqOps -> ("eq_operand")
               [] n.op \in LogOps \cup {"not"} -> ("logic_operand")
               [] n.op = "spec" -> ("spec_operand")
               [] OTHER -> ("atom")

TyTxt(n) == LET d == Desc(R0, n) IN IF d.ok THEN d.ty ELSE "ERR"
RECURSIVE JoinS(_, _, _)
JoinS(q, sep, j) == IF j > Len(q) THEN "" ELSE (IF j > 1 THEN sep ELSE "") \o q[j] \o JoinS(q, sep, j + 1)
SrcList(ns) == JoinS([j \in DOMAIN ns |-> Src(ns[j])], ";", 1)      \* `;` and `|` never occur in a source
TyList(ns) == JoinS([j \in DOMAIN ns |-> TyTxt(ns[j])], ";", 1)

-----------------------------------------------------------------------------
(* 4. Statement-level rules                                                 *)
StmtOK(r, e) == Desc(r, e).ok
DeclOK(r, D, e) ==                                               \* `D x = e;` (T8)
    LET d == Desc(r, e) T == Strip(D) IN d.ok /\ Coercible(d, T) /\ ~VolatileBind(d, T)
AssignOK(r, l, e) ==                                             \* `l = e;` (T7)
    LET dl == Desc(r, l) d == Desc(r, e) IN dl.ok /\ d.ok /\ dl.asg /\ Coercible(d, dl.ty)
IncAssignOK(r, op, l, e) == AssignOK(r, l, N2(op, l, e))        \* `l op= e;` (T7)
ArgOK(r, P, e) == LET d == Desc(r, e) IN d.ok /\ Coercible(d, Strip(P))       \* one overload `f(P p)`
ReturnOK(r, R, e) ==                                             \* `return e;` in `R g(..)` (T11)
    LET d == Desc(r, e) IN R # "empty" /\ d.ok /\ Coercible(d, R)
CondOK(r, e) == LET d == Desc(r, e) IN d.ok /\ Castable(d, "bool")             \* (T13)
ArrInitOK(r, D, e) ==                                            \* `D x[e];` (T8)
    LET d == Desc(r, e) IN D \in Scalars /\ d.ok /\ IntCo(d)

\* labels of the broken rule (reading R0), "ok" when none
WhyExpr(e) == IF Desc(R0, e).ok THEN "ok" ELSE WhyBad(e)
WhyDecl(D, e) ==
    LET d == Desc(R0, e) IN
    IF ~d.ok THEN WhyBad(e) ELSE IF ~Coercible(d, Strip(D)) THEN "init_not_coercible"
    ELSE IF VolatileBind(d, Strip(D)) THEN "const_decl_of_mutable_array" ELSE "ok"
WhyAssign(l, e) ==
    LET dl == Desc(R0, l) d == Desc(R0, e) IN
    IF ~dl.ok THEN WhyBad(l) ELSE IF ~d.ok THEN WhyBad(e)
    ELSE IF ~dl.asg
         THEN (IF l.op = "idx"
               THEN (IF Desc(R0, l.kids[1]).ty = "string" THEN "string_element_assignment"
                     ELSE "const_element_assignment")
               ELSE IF l.op = "atom" /\ IsArr(dl.ty) THEN "array_rebind"
               ELSE IF l.op = "atom" /\ dl.kind = "cvar" THEN "const_assignment"
               ELSE "not_an_lvalue")
    ELSE IF ~Coercible(d, dl.ty) THEN "value_not_coercible" ELSE "ok"
WhyArg(P, e) ==
    LET d == Desc(R0, e) IN IF ~d.ok THEN WhyBad(e) ELSE IF ~Coercible(d, Strip(P)) THEN "no_matching_overload" ELSE "ok"
WhyReturn(R, e) ==
    LET d == Desc(R0, e) IN
    IF R = "empty" THEN "return_value_in_empty" ELSE IF ~d.ok THEN WhyBad(e)
    ELSE IF ~Coercible(d, R) THEN "return_not_coercible" ELSE "ok"
WhyCond(e) ==
    LET d == Desc(R0, e) IN IF ~d.ok THEN WhyBad(e) ELSE IF ~Castable(d, "bool") THEN "cond_not_bool" ELSE "ok"
WhyArrInit(D, e) ==
    LET d == Desc(R0, e) IN
    IF D \notin Scalars THEN "const_array_initializer" ELSE IF ~d.ok THEN WhyBad(e)
    ELSE IF ~IntCo(d) THEN "length_not_int" ELSE "ok"

(* call binding (T12): sigs = sequence of parameter-type sequences in declaration order *)
Min(S) == CHOOSE k \in S : \A k2 \in S : k <= k2
Bind(sigs, ds) ==
    IF \E j \in DOMAIN ds : ~ds[j].ok THEN 0
    ELSE LET same == {k \in DOMAIN sigs : Len(sigs[k]) = Len(ds)}
             exact == {k \in same : \A j \in DOMAIN ds : sigs[k][j] = ds[j].ty}
             co == {k \in same : \A j \in DOMAIN ds : Coercible(ds[j], sigs[k][j])}
         IN  IF exact # {} THEN Min(exact) ELSE IF co # {} THEN Min(co) ELSE 0
BindN(r, sigs, es) == Bind(sigs, [j \in DOMAIN es |-> Desc(r, es[j])])
TriBind(es, sigs) ==       \* -1 when the readings disagree
    LET rs == Rs({es[j] : j \in DOMAIN es}) IN
    IF \A r \in rs : BindN(r, sigs, es) = BindN(R0, sigs, es) THEN BindN(R0, sigs, es) ELSE -1
BindVerdict(k) == IF k = -1 THEN "dontcare" ELSE IF k = 0 THEN "reject" ELSE "accept"

SigsTxt(sigs) == JoinS([k \in DOMAIN sigs |-> JoinS(sigs[k], ",", 1)], ";", 1)
WriteSigs == << <<"string">>, <<"const byte[]">>, <<"int">>, <<"byte">>, <<"bool">> >>
DistinctSigs(sigs) == \A j, k \in DOMAIN sigs : j # k => sigs[j] # sigs[k]

-----------------------------------------------------------------------------
(* 5. The expression universes                                              *)
At(S) == {N0(a) : a \in S}
A0 == At(AtomNames \ {"0"})
Rn == At({"i", "b", "5", "'a'", "ci", "cb"})
R2 == At({"i", "b", "t", "s", "5", "'a'", "\"str\"", "true", "ci", "fe()", "ai"})
R3 == At({"i", "b", "t", "s", "5", "'a'", "true", "\"str\"", "ai", "cai", "ab", "cs"}) \cup {NLit(<<>>)}
Rq3 == At({"i", "b", "5"})
Rq4 == At({"i", "b", "5", "t"})
CastT == {"int", "byte", "bool", "string", "int[]", "byte[]", "bool[]", "string[]"}
ArrCastT == {"int[]", "byte[]", "bool[]", "string[]"}
Zero == N0("0")

Add(S1, S2) == {N2("add", x, y) : x \in S1, y \in S2}
Casts(S, Ts) == {NIs(x, T) : x \in S, T \in Ts}
Lits(S) == {NLit(<<>>)} \cup {NLit(<<x>>) : x \in S} \cup {NLit(<<x, y>>) : x \in S, y \in S}
Idx0(S) == {N2("idx", x, Zero) : x \in S}
Lens(S) == {N1("len", x) : x \in S}

\* quick tier: one atom per descriptor class (gi~i, gci~ci, pci~cni, gai~ai, gcai~cai, gb~b, 300~5 are left to
\* the contexts that range over A0: assignment targets, ESmall, EOp, overload arguments, global initialisers)
AQ == IF Quick THEN At(AtomNames \ {"0", "gi", "gci", "pci", "gai", "gcai", "gb", "300"}) ELSE A0
ArithU == IF Quick THEN Add(Rn, Rn) \cup Add(At({"i"}), AQ) \cup Add(AQ, At({"b"})) ELSE Add(A0, A0)
NegU == {N1("neg", x) : x \in AQ}
\* unary plus is an arithmetic operator too: its result is an int whatever the operand (wave 10: `unary_plus_elided`
\* kept the operand's type, so `+b` chose the byte overload and was no longer an int for `??` and declarations)
PosU == {N1("pos", x) : x \in At({"b", "5", "'a'", "i", "t", "s", "ci"} \cap AtomNames)}
CastU == Casts(AQ, CastT)
\* three-element literals: the element type is the first entry type to which EVERY entry is coercible, not only one
\* representative per type (wave 10: `literal_type_from_representatives` typed ['a', i, 1] as const byte[])
Lit3 == {NLit(<<x, y, z>>) : x \in At({"'a'", "i", "5"}), y \in At({"'a'", "i", "5", "b"}), z \in At({"'a'", "i", "5"})}
LitU == (IF Quick THEN {NLit(<<>>)} \cup {NLit(<<x>>) : x \in AQ} \cup {NLit(<<x, y>>) : x \in R2, y \in R2}
         ELSE Lits(A0)) \cup Lit3
IdxU == Idx0(AQ) \cup (IF Quick THEN {} ELSE {N2("idx", x, N0("i")) : x \in A0})
LenU == Lens(AQ)
BoolU == {N2("lt", N0("i"), N0("b")), N2("lt", N0("5"), N0("300")), N2("and", N0("t"), N0("t")),
          N1("not", N0("s"))}
E1 == AQ \cup ArithU \cup NegU \cup PosU \cup CastU \cup LitU \cup IdxU \cup LenU \cup BoolU

IntByte == {"int", "byte"}
E2 == IF Quick
      THEN Casts(Add(Rq3, Rq3), IntByte)
           \cup Casts({NLit(<<x, y>>) : x \in Rq4, y \in Rq4}, {"int[]", "byte[]"})
           \cup Add(Casts(Rn, IntByte), At({"b"}))
           \cup {NLit(<<c, N0("b")>>) : c \in Casts(Rn, IntByte)}
           \cup Idx0({NLit(<<>>), NLit(<<N0("5"), N0("b")>>), NIs(N0("ai"), "int[]"), NIs(N0("s"), "byte[]")})
           \cup Casts(Casts(At({"5", "b", "ai", "true"}), {"int", "byte", "int[]"}), {"int", "byte", "int[]"})
      ELSE Casts(Add(Rn, Rn), CastT)
           \cup Casts(Lits(R2), CastT)
           \cup Casts(Casts(R3, CastT), CastT)
           \cup Add(Casts(Rn, {"int", "byte", "bool"}) \cup Add(Rn, Rn), At({"b", "5", "i"}))
           \cup {NLit(<<c, o>>) : c \in Casts(Rn, IntByte) \cup Add(Rn, Rn), o \in At({"b", "5", "i", "t"})}
           \cup {NLit(<<o, c>>) : c \in Casts(Rn, IntByte) \cup Add(Rn, Rn), o \in At({"b", "5", "i", "t"})}
           \cup Idx0(Lits(R2) \cup Casts(A0, ArrCastT))
           \cup Lens(Lits(R2) \cup Casts(A0, ArrCastT))
E == E1 \cup E2

\* a small universe for the contexts that have a second large dimension
ESmall == A0 \cup Add(Rn, Rn)
          \cup {NLit(<<>>), NLit(<<N0("5")>>), NLit(<<N0("b")>>), NLit(<<N0("i")>>), NLit(<<N0("\"str\"")>>),
                NLit(<<N0("t")>>), NLit(<<N0("5"), N0("b")>>)}
          \cup {NIs(N0("ai"), "int[]"), NIs(N0("s"), "byte[]"), NIs(N0("5"), "int"), NIs(N0("b"), "int"),
                NIs(N0("i"), "byte"), NIs(N2("add", N0("b"), N0("b")), "int")}
\* operands
EOp == A0 \cup Add(Rn, Rn) \cup Casts(A0, {"int", "byte", "bool"}) \cup IdxU \cup LenU \cup BoolU
       \cup {NLit(<<>>), NLit(<<N0("5")>>), NLit(<<N0("5"), N0("b")>>), NLit(<<N0("i"), N0("t")>>),
             NIs(N0("ai"), "int[]"), NIs(N0("s"), "byte[]")}

-----------------------------------------------------------------------------
(* 6. Contexts (positions) of the expression family                         *)
Ctx(pos, tgt, op, o) == [pos |-> pos, tgt |-> tgt, op |-> op, o |-> o]
DeclT == Scalars \cup {ArrM(e) : e \in Scalars} \cup {ArrC(e) : e \in Scalars} \cup {"const int", "const string"}
RetT == Scalars \cup {"empty"}
ArrInitT == IF Quick THEN {"int", "const int"} ELSE {"int", "string", "bool", "const int"}
ArgT == IF Quick THEN {"int", "byte", "string", "int[]", "const int[]", "const byte[]"}
        ELSE Scalars \cup {"const int", "int[]", "const int[]", "byte[]", "const byte[]", "string[]", "const bool[]"}

LhsFull == IF Quick THEN At({"b", "s"}) \cup Idx0(At({"ai", "at"}))
           ELSE At({"i", "b", "t", "s"}) \cup Idx0(At({"ai", "ab", "at", "astr"}))
LhsAll == A0 \cup Idx0(A0)
          \cup {N2("idx", NIs(N0("ai"), "int[]"), Zero), N2("idx", NLit(<<N0("5"), N0("300")>>), Zero),
                N2("idx", N0("ai"), N0("i")), N2("idx", N0("ai"), N0("t")), N2("idx", N0("ab"), N0("b"))}
LhsInc == At({"i", "b", "t", "s", "ci", "cb", "pci", "gi", "gb", "ai"})
          \cup Idx0(At({"ai", "cai", "ab", "cab", "at", "astr", "s", "cs", "\"str\""}))
IncOps == IF Quick THEN {"add", "mod"} ELSE ArithOps

OperandOps == IF Quick THEN {"add", "mod", "lt", "eq", "and"}
              ELSE ArithOps \cup CmpOps \cup EqOps \cup LogOps
OperandOthers == IF Quick THEN At({"i", "t", "5", "s"}) ELSE At({"i", "b", "t", "s", "5", "ai"})
SpecOthers == IF Quick THEN At({"i", "t", "5", "s", "fe()"})   \* s, fe(): same-typed non-scalar operands on both sides (wave 10: `speculation_scalar_blacklist`)
              ELSE At({"i", "b", "t", "s", "5", "'a'", "true", "ai", "fe()"}) \cup {N2("add", N0("b"), N0("b"))}
ElemOthers == IF Quick THEN At({"i", "b", "s"}) ELSE At({"i", "b", "t", "s", "5", "'a'", "ai", "fe()"})
IdxSources == At({"ai", "s", "cab", "\"str\""}) \cup {NLit(<<N0("5"), N0("300")>>)}
SpecDeclS == Rn \cup At({"t", "true"})
ForInitT == {"int", "byte", "string", "int[]", "const int[]", "const byte[]"}
LhsStep == At({"i", "b", "s", "ci", "ai"}) \cup Idx0(At({"ai", "cab", "s"}))

ExprCtxs ==
    {Ctx("stmt", "", "", None), Ctx("write", "", "", None), Ctx("if", "", "", None),
     Ctx("while", "", "", None), Ctx("for", "", "", None), Ctx("len", "", "", None)}
    \cup {Ctx("decl", T, "", None) : T \in DeclT}
    \cup {Ctx("arg", T, "", None) : T \in ArgT}
    \cup {Ctx("ret", T, "", None) : T \in RetT}
    \cup {Ctx("is", T, "", None) : T \in CastT}
    \cup {Ctx("arrinit", T, "", None) : T \in ArrInitT}
    \cup {Ctx("assign", "", "", l) : l \in LhsAll \cup LhsFull}
    \cup {Ctx("inc", "", op, l) : op \in IncOps, l \in LhsInc}
    \cup {Ctx("operand", side, op, o) : side \in {"L", "R"}, op \in OperandOps, o \in OperandOthers}
    \cup {Ctx("unary", "", op, None) : op \in {"neg", "pos", "not"}}
    \cup {Ctx("spec", side, "spec", o) : side \in {"L", "R"}, o \in SpecOthers}
    \cup {Ctx("specdecl", T, "spec", o) : T \in {"int", "byte", "bool"}, o \in SpecDeclS}
    \cup {Ctx("idxsrc", "", "idx", o) : o \in At({"0", "i"})}
    \cup {Ctx("idxidx", "", "idx", o) : o \in IdxSources}
    \cup {Ctx("elem", side, "alit", o) : side \in {"L", "R"}, o \in ElemOthers}
    \cup {Ctx("forinit", T, "", None) : T \in ForInitT}
    \cup {Ctx("forstep", "", op, l) : op \in {"", "add"}, l \in LhsStep}
    \cup {Ctx("nesteddecl", T, "", None) : T \in DeclT}
    \cup {Ctx("trydecl", T, "", None) : T \in ForInitT}
    \cup {Ctx("deadcode", T, "", None) : T \in {"int", "byte", "const int[]"}}
    \cup {Ctx("sleep", "int", "", None)}

\* the expressions a context is exercised with
Univ(c) ==
    CASE c.pos \in {"stmt", "write", "if", "while", "for", "len", "decl", "arg", "ret", "is", "arrinit",
                    "idxsrc"} -> (E)
      [] c.pos = "assign" -> (IF c.o \in LhsFull THEN E ELSE ESmall)
      [] c.pos \in {"inc", "forinit", "forstep", "nesteddecl", "trydecl", "deadcode", "sleep"} -> (ESmall)
      [] c.pos \in {"operand", "unary", "spec", "idxidx", "elem"} -> (EOp)
      [] c.pos = "specdecl" -> (SpecDeclS)

\* the expression built by an operand-like context around e
Built(c, e) ==
    CASE c.pos \in {"operand", "spec"} -> (IF c.tgt = "L" THEN N2(c.op, e, c.o) ELSE N2(c.op, c.o, e))
      [] c.pos = "specdecl" -> (N2("spec", c.o, e))
      [] c.pos = "unary" -> (N1(c.op, e))
      [] c.pos = "idxsrc" -> (N2("idx", e, c.o))
      [] c.pos = "idxidx" -> (N2("idx", c.o, e))
      [] c.pos = "len" -> (N1("len", e))
      [] c.pos = "elem" -> (IF c.tgt = "L" THEN NLit(<<e, c.o>>) ELSE NLit(<<c.o, e>>))
      [] c.pos = "is" -> (NIs(e, c.tgt))
      [] OTHER -> (e)

ExprVerdict(c, e) ==
    LET x == Built(c, e) IN
    CASE c.pos \in {"stmt", "operand", "unary", "spec", "idxsrc", "idxidx", "len", "elem", "is"}
             -> (Tri({x}, LAMBDA r : StmtOK(r, x)))
      [] c.pos \in {"decl", "forinit", "nesteddecl", "trydecl"} -> (Tri({e}, LAMBDA r : DeclOK(r, c.tgt, e)))
      \* D6: a statement after `return;` is unreachable; hidc drops it before typechecking it.  Well typed:
      \* accept; ill typed: README silent, dontcare.
      [] c.pos = "deadcode" -> (IF Tri({e}, LAMBDA r : DeclOK(r, c.tgt, e)) = "accept" THEN "accept" ELSE "dontcare")
      [] c.pos = "sleep" -> (Tri({e}, LAMBDA r : ArgOK(r, c.tgt, e)))
      [] c.pos = "forstep" -> (IF c.op = "" THEN Tri({c.o, e}, LAMBDA r : AssignOK(r, c.o, e))
                               ELSE Tri({c.o, e}, LAMBDA r : IncAssignOK(r, c.op, c.o, e)))
      [] c.pos = "specdecl" -> (Tri({x}, LAMBDA r : DeclOK(r, c.tgt, x)))
      [] c.pos = "arg" -> (Tri({e}, LAMBDA r : ArgOK(r, c.tgt, e)))
      [] c.pos = "ret" -> (Tri({e}, LAMBDA r : ReturnOK(r, c.tgt, e)))
      [] c.pos \in {"if", "while", "for"} -> (Tri({e}, LAMBDA r : CondOK(r, e)))
      [] c.pos = "arrinit" -> (Tri({e}, LAMBDA r : ArrInitOK(r, c.tgt, e)))
      [] c.pos = "assign" -> (Tri({c.o, e}, LAMBDA r : AssignOK(r, c.o, e)))
      [] c.pos = "inc" -> (Tri({c.o, e}, LAMBDA r : IncAssignOK(r, c.op, c.o, e)))
      [] c.pos = "write" -> (BindVerdict(TriBind(<<e>>, WriteSigs)))

ExprWhy(c, e) ==
    LET x == Built(c, e) IN
    CASE c.pos \in {"stmt", "operand", "unary", "spec", "idxsrc", "idxidx", "len", "elem", "is"} -> (WhyExpr(x))
      [] c.pos \in {"decl", "forinit", "nesteddecl", "trydecl", "deadcode"} -> (WhyDecl(c.tgt, e))
      [] c.pos = "sleep" -> (WhyArg(c.tgt, e))
      [] c.pos = "forstep" -> (WhyAssign(c.o, IF c.op = "" THEN e ELSE N2(c.op, c.o, e)))
      [] c.pos = "specdecl" -> (WhyDecl(c.tgt, x))
      [] c.pos = "arg" -> (WhyArg(c.tgt, e))
      [] c.pos = "ret" -> (WhyReturn(c.tgt, e))
      [] c.pos \in {"if", "while", "for"} -> (WhyCond(e))
      [] c.pos = "arrinit" -> (WhyArrInit(c.tgt, e))
      [] c.pos = "assign" -> (WhyAssign(c.o, e))
      [] c.pos = "inc" -> (WhyAssign(c.o, N2(c.op, c.o, e)))
      [] c.pos = "write" -> (IF ~Desc(R0, e).ok THEN WhyBad(e)
                             ELSE IF BindN(R0, WriteSigs, <<e>>) = 0 THEN "no_matching_overload" ELSE "ok")

\* what Python substitutes into the statement template of the position
ExprShown(c, e) ==
    CASE c.pos \in {"assign", "inc", "forstep"} -> (<<c.o, e>>)
      [] c.pos \in {"operand", "unary", "spec", "specdecl", "idxsrc", "idxidx", "len", "elem", "is"}
             -> (<<Built(c, e)>>)
      [] OTHER -> (<<e>>)
ExprTarget(c) == IF c.pos = "inc" \/ (c.pos = "forstep" /\ c.op # "") THEN OpTxt(c.op) ELSE IF c.pos = "write" THEN SigsTxt(WriteSigs) ELSE c.tgt
ExprId(c, e) == c.pos \o "|" \o ExprTarget(c) \o "|" \o SrcList(ExprShown(c, e))

\* `return;` / falling off the end: position "noret", target = return type
NoRetCtxs == {Ctx("noret", T, k, None) : T \in RetT, k \in {"bare", "none"}}
NoRetVerdict(c) == IF c.tgt = "empty" THEN "accept" ELSE "reject"       \* (T11)

-----------------------------------------------------------------------------
(* 7. The call family: arity, overload choice, user overloads of write      *)
ParamU == IF Quick THEN {"int", "byte", "string", "byte[]", "const byte[]", "int[]", "const int[]"}
          ELSE Scalars \cup {ArrM(e) : e \in Scalars} \cup {ArrC(e) : e \in Scalars}
ArgU == A0 \cup
    {N2("add", N0("b"), N0("b")), N2("add", N0("5"), N0("5")), N2("add", N0("i"), N0("b")), N1("neg", N0("b")), N1("pos", N0("b")), N1("pos", N0("5")), NLit(<<N0("'a'"), N0("i"), N0("5")>>), NLit(<<N0("'a'"), N0("5"), N0("i")>>), NLit(<<N0("5"), N0("i"), N0("'a'")>>),
     NLit(<<>>), NLit(<<N0("5")>>), NLit(<<N0("b")>>), NLit(<<N0("5"), N0("b")>>), NLit(<<N0("b"), N0("5")>>),
     NLit(<<N0("i")>>), NLit(<<N0("i"), N0("b")>>), NLit(<<N0("\"str\"")>>), NLit(<<N0("t")>>),
     NLit(<<N0("s")>>), NLit(<<N0("'a'")>>), NLit(<<N0("5"), N0("'a'")>>), NLit(<<N0("true")>>),
     NIs(N0("ai"), "int[]"), NIs(N0("ab"), "byte[]"), NIs(N0("cai"), "int[]"), NIs(N0("s"), "byte[]"),
     NIs(NLit(<<N0("5")>>), "byte[]"), NIs(NLit(<<N0("b")>>), "int[]"), NIs(N0("5"), "int"),
     NIs(N0("b"), "int"), NIs(N0("t"), "byte"), NIs(N2("add", N0("b"), N0("b")), "int"),
     NIs(N0("true"), "int"), N2("idx", N0("ab"), Zero), N1("len", N0("s"))}
ArgQ == At({"i", "b", "t", "s", "5", "'a'", "\"str\"", "ai", "cai", "ab", "cab", "ci", "fe()"})
Arg2 == At({"i", "b", "5", "'a'"}) \cup {N2("add", N0("b"), N0("b"))}
Sig2U == {<<x, y>> : x \in IntByte, y \in IntByte}

\* ordered sets of <= 3 distinct one-parameter signatures, and of two-parameter ones
OneSigs(n) == {q \in [1..n -> ParamU] : \A j, k \in 1..n : j # k => q[j] # q[k]}
TwoSigs(n) == {q \in [1..n -> Sig2U] : \A j, k \in 1..n : j # k => q[j] # q[k]}
Wrap(q) == [k \in DOMAIN q |-> <<q[k]>>]

CallCtxs ==
    {[pos |-> "overload", sigs |-> Wrap(q)] : q \in OneSigs(1) \cup OneSigs(2) \cup OneSigs(3)}
    \cup {[pos |-> "overload2", sigs |-> q] : q \in TwoSigs(1) \cup TwoSigs(2) \cup TwoSigs(3)}
    \cup {[pos |-> "arity", sigs |-> <<s>>] : s \in {<<>>, <<"int">>, <<"int", "byte">>}}
    \cup {[pos |-> "arity", sigs |-> << <<>>, <<"int">>, <<"int", "byte">> >>]}
    \cup {[pos |-> "writeext", sigs |-> <<<<T>>>>] : T \in ParamU \cup {"bool", "string[]"}}
    \cup {[pos |-> "undeclared", sigs |-> <<>>]}

CallArgs(c) ==
    CASE c.pos = "overload" -> ({<<a>> : a \in (IF Quick /\ Len(c.sigs) = 3 THEN ArgQ ELSE ArgU)})
      [] c.pos = "overload2" -> ({<<a, b>> : a \in Arg2, b \in Arg2})
      [] c.pos = "arity" -> ({<<>>} \cup {<<a>> : a \in At({"i", "b", "s"})}
                               \cup {<<a, b>> : a \in At({"i", "s"}), b \in At({"b", "i"})}
                               \cup {<<N0("i"), N0("b"), N0("i")>>})
      [] c.pos = "writeext" -> ({<<a>> : a \in ArgU})
      [] c.pos = "undeclared" -> ({<<>>, <<N0("i")>>})

\* the overload set the call is resolved against, in declaration order
CallSigs(c) == IF c.pos = "writeext" THEN WriteSigs \o c.sigs ELSE c.sigs
CallOverload(c, es) ==
    IF ~DistinctSigs(CallSigs(c)) THEN 0           \* duplicate signature: the program is rejected (T10)
    ELSE TriBind(es, CallSigs(c))

-----------------------------------------------------------------------------
(* 8. The structural family                                                 *)
(* 8.1 scope machine (T9).  A program: g globals named x, an optional sibling function that also uses  *)
(* the name, the test function with p parameters named x and a body of events                           *)
(*   L `int x = 1;`  A `int x[2];`  O `if (true) {`  F `for (int x = 0; x < 1; x += 1) {`  C `}`  U `x;` *)
(* stk = one flag per open LOCAL scope level (parameter level first): is x declared at that level;      *)
(* for-loops open two levels (the init scope and the body).                                            *)
BodyEvents == {"L", "A", "O", "F", "C", "U"}
MaxBody == IF Quick THEN 3 ELSE 5

(* 8.2 signature machine (T10) *)
FDeclU ==
    {[name |-> n, params |-> p, ret |-> rt] :
        n \in {"f", "!f"},
        p \in {<<>>, <<"int">>, <<"const int">>, <<"byte">>, <<"int[]">>, <<"const int[]">>, <<"int", "byte">>},
        rt \in {"empty", "int"}}
    \cup {[name |-> n, params |-> p, ret |-> "empty"] :
        n \in {"writeln", "sleep", "!is_defeat", "is_defeat"}, p \in {<<>>, <<"int">>, <<"byte">>}}
FDeclU3 == {d \in FDeclU : d.name \in {"f", "!f", "writeln"} /\ d.ret = "empty"
                            /\ d.params \in {<<>>, <<"int">>, <<"const int">>, <<"int[]">>, <<"const int[]">>}}
Builtins ==
    {<<"!is_defeat", <<>>>>, <<"!truth_is_defeat", <<"bool">>>>,
     <<"write", <<"string">>>>, <<"write", <<"const byte[]">>>>, <<"write", <<"int">>>>,
     <<"write", <<"byte">>>>, <<"write", <<"bool">>>>,
     <<"writeln", <<"string">>>>, <<"writeln", <<"const byte[]">>>>, <<"writeln", <<"int">>>>,
     <<"writeln", <<"byte">>>>, <<"writeln", <<"bool">>>>, <<"writeln", <<>>>>,
     <<"all_is_win", <<>>>>, <<"all_is_broken", <<>>>>, <<"sleep", <<"int">>>>, <<"debug", <<>>>>,
     <<"progress", <<>>>>}
Signature(d) == <<d.name, [k \in DOMAIN d.params |-> Strip(d.params[k])]>>
FuncsOK(ds) ==
    /\ \A j, k \in DOMAIN ds : j # k => Signature(ds[j]) # Signature(ds[k])
    /\ \A j \in DOMAIN ds : Signature(ds[j]) \notin Builtins
MaxFuncs == IF Quick THEN 2 ELSE 3
\* "ret:name:p1,p2" joined by `;`
FuncsTxt(ds) == JoinS([k \in DOMAIN ds |-> ds[k].ret \o ":" \o ds[k].name \o ":" \o JoinS(ds[k].params, ",", 1)], ";", 1)

(* 8.3 type syntax (T1, T8, T11): where a type may be written *)
TypeSyntaxCases ==
    {[where |-> w, el |-> e, dims |-> n, const |-> k] :
        w \in {"local", "param", "global", "ret", "cast", "arrinit"},
        e \in {"int", "string", "empty"}, n \in 0..2, k \in BOOLEAN}
TypeSyntaxVerdict(c) ==
    IF c.const /\ c.where = "cast" THEN "dontcare"                            \* D5
    ELSE IF c.const /\ c.where = "ret" THEN (IF c.el = "empty" \/ c.dims > 0 THEN "reject" ELSE "dontcare")
    ELSE IF c.where = "ret" THEN (IF c.dims = 0 THEN "accept" ELSE "reject")
    ELSE IF c.el = "empty" \/ c.dims > 1 THEN "reject"
    ELSE IF c.where = "arrinit" THEN (IF c.dims = 0 /\ ~c.const THEN "accept" ELSE "reject")
    ELSE "accept"

(* 8.4 global initialisers: the same declaration rule at global scope, over global atoms *)
GA0 == At({"gi", "gci", "gb", "gai", "gcai", "5", "300", "'a'", "\"str\"", "true"})
GE == GA0 \cup Add(GA0, GA0) \cup Casts(GA0, CastT) \cup Lits(GA0)
      \cup {N1("neg", x) : x \in GA0} \cup Idx0(GA0) \cup Lens(GA0)

-----------------------------------------------------------------------------
(* 9. The enumerating state machine                                         *)
VARIABLES stage,    \* "ctx": a context has been chosen; "done": a case has been judged;
                    \* "scope" / "funcs": the structural machines
          ctx,      \* the chosen context
          cur,      \* the judged case id
          sc,       \* scope machine: [g, p, sib, body, stk, two, bad]
          fd        \* signature machine: sequence of function declarations
vars == <<stage, ctx, cur, sc, fd>>

NoScope == [g |-> 0, p |-> 0, sib |-> FALSE, body |-> <<>>, stk |-> <<>>, two |-> <<>>, bad |-> FALSE, why |-> "ok"]
NoCtx == [pos |-> "none"]

\* One case = one printed line  <<"HV", "position|target|sources|types|verdict|overload|rule">>
\* (caseId = position|target|sources; sources and types are `;`-separated; rule = label of the broken
\* rule under reading R0, "ok" if none).  A single flat string, because TLC's pretty-printer is slow on
\* nested values.
Emit(id, tys, verdict, ov, why) ==
    PrintT(<<"HV", id \o "|" \o tys \o "|" \o verdict \o "|" \o ToString(ov) \o "|" \o why>>)
Bit(b) == IF b THEN "1" ELSE "0"

ScopeVerdict(s) == IF s.bad THEN "reject" ELSE "accept"
ScopeInit(g, p, sib) ==
    [g |-> g, p |-> p, sib |-> sib, body |-> <<>>, stk |-> <<p >= 1, FALSE>>, two |-> <<FALSE, FALSE>>,
     bad |-> (g >= 2 \/ p >= 2),
     why |-> IF g >= 2 THEN "redeclared_global" ELSE IF p >= 2 THEN "duplicate_parameter" ELSE "ok"]
ScopeId(s) == "names|" \o ToString(s.g) \o "," \o ToString(s.p) \o "," \o Bit(s.sib) \o ","
              \o JoinS(s.body, "", 1) \o "|"

Init ==
    /\ cur = <<>>
    /\ \/ /\ Family = "expr"
          /\ stage = "ctx" /\ ctx \in ExprCtxs \cup NoRetCtxs /\ sc = NoScope /\ fd = <<>>
       \/ /\ Family = "call"
          /\ stage = "ctx" /\ ctx \in CallCtxs /\ sc = NoScope /\ fd = <<>>
       \/ /\ Family = "struct"
          /\ \/ /\ stage = "scope" /\ ctx = NoCtx /\ fd = <<>>
                /\ \E g \in 0..2, p \in 0..2, sib \in BOOLEAN : sc = ScopeInit(g, p, sib)
             \/ /\ stage = "funcs" /\ ctx = NoCtx /\ sc = NoScope /\ fd = <<>>
             \/ /\ stage = "ctx" /\ ctx \in {[pos |-> "typesyntax"], [pos |-> "gdecl"]}
                /\ sc = NoScope /\ fd = <<>>

Done(id) == stage' = "done" /\ cur' = id /\ UNCHANGED <<ctx, sc, fd>>

\* one action per syntactic position -----------------------------------------------------------------
JudgeExpr(P) ==
    /\ stage = "ctx" /\ ctx.pos \in P
    /\ \E e \in Univ(ctx) :
          /\ Emit(ExprId(ctx, e), TyList(ExprShown(ctx, e)), ExprVerdict(ctx, e),
                  IF ctx.pos = "write" THEN TriBind(<<e>>, WriteSigs) ELSE 0, ExprWhy(ctx, e))
          /\ Done(ExprId(ctx, e))

ExprStatement == JudgeExpr({"stmt"})
Declaration == JudgeExpr({"decl", "specdecl", "forinit", "nesteddecl", "trydecl", "deadcode"})
ArrayInit == JudgeExpr({"arrinit"})
Assignment == JudgeExpr({"assign"})
IncAssignment == JudgeExpr({"inc", "forstep"})
CallArgument == JudgeExpr({"arg", "sleep"})
BuiltinWrite == JudgeExpr({"write"})
ReturnValue == JudgeExpr({"ret"})
Condition == JudgeExpr({"if", "while", "for"})
Operand == JudgeExpr({"operand", "unary", "spec"})
IndexLength == JudgeExpr({"idxsrc", "idxidx", "len"})
ArrayElement == JudgeExpr({"elem"})
IsCast == JudgeExpr({"is"})

ReturnNothing ==
    /\ stage = "ctx" /\ ctx.pos = "noret" /\ ctx.tgt # ""
    /\ Emit("noret|" \o ctx.tgt \o "," \o ctx.op \o "|", "", NoRetVerdict(ctx), 0,
            IF ctx.tgt = "empty" THEN "ok" ELSE "missing_return_value")
    /\ Done("noret|" \o ctx.tgt \o "," \o ctx.op \o "|")

Call ==
    /\ stage = "ctx" /\ ctx.pos \in {"overload", "overload2", "arity", "writeext", "undeclared"}
    /\ \E es \in CallArgs(ctx) :
          LET k == CallOverload(ctx, es)
              id == ctx.pos \o "|" \o SigsTxt(CallSigs(ctx)) \o "|" \o SrcList(es)
          IN  /\ Emit(id, TyList(es), BindVerdict(k), k,
                       IF ~DistinctSigs(CallSigs(ctx)) THEN "duplicate_signature"
                       ELSE IF \E j \in DOMAIN es : ~Desc(R0, es[j]).ok THEN WhyBad(es[CHOOSE j \in DOMAIN es : ~Desc(R0, es[j]).ok])
                       ELSE IF k = 0 THEN "no_matching_overload" ELSE "ok")
              /\ Done(id)

TypeSyntax ==
    /\ stage = "ctx" /\ ctx.pos = "typesyntax"
    /\ \E c \in TypeSyntaxCases :
          LET id == "typesyntax|" \o c.where \o "," \o c.el \o "," \o ToString(c.dims) \o "," \o Bit(c.const) \o "|"
          IN  /\ Emit(id, "", TypeSyntaxVerdict(c), 0, "type_syntax")
              /\ Done(id)

GlobalDeclaration ==
    /\ stage = "ctx" /\ ctx.pos = "gdecl"
    /\ \E T \in DeclT, e \in GE :
          /\ Emit("gdecl|" \o T \o "|" \o Src(e), TyTxt(e), Tri({e}, LAMBDA r : DeclOK(r, T, e)), 0,
                  WhyDecl(T, e))
          /\ Done("gdecl|" \o T \o "|" \o Src(e))

GlobalArrayInit ==
    /\ stage = "ctx" /\ ctx.pos = "gdecl"
    /\ \E T \in ArrInitT, e \in GE :
          /\ Emit("garrinit|" \o T \o "|" \o Src(e), TyTxt(e), Tri({e}, LAMBDA r : ArrInitOK(r, T, e)), 0,
                  WhyArrInit(T, e))
          /\ Done("garrinit|" \o T \o "|" \o Src(e))

\* scope machine: Declaration.evaluate / VarTable ----------------------------------------------------
Declared(s) == \E k \in DOMAIN s.stk : s.stk[k]
Top(s) == Len(s.stk)
SetTop(stk) == [stk EXCEPT ![Len(stk)] = TRUE]
ScopeStep(s, ev) ==
    LET s1 == [s EXCEPT !.body = Append(s.body, ev)] IN
    CASE ev \in {"L", "A"} ->        \* a local declaration: no local x may be visible
            ([s1 EXCEPT !.bad = Declared(s), !.stk = SetTop(s.stk),
                        !.why = IF Declared(s) THEN "redeclared_local" ELSE "ok"])
      [] ev = "O" -> ([s1 EXCEPT !.stk = Append(s.stk, FALSE), !.two = Append(s.two, FALSE)])
      [] ev = "F" ->                 \* init scope (declares x) + body scope
            ([s1 EXCEPT !.bad = Declared(s), !.stk = s.stk \o <<TRUE, FALSE>>, !.two = s.two \o <<FALSE, TRUE>>,
                        !.why = IF Declared(s) THEN "redeclared_local" ELSE "ok"])
      [] ev = "C" ->
            (IF s.two[Top(s)]
             THEN [s1 EXCEPT !.stk = SubSeq(s.stk, 1, Top(s) - 2), !.two = SubSeq(s.two, 1, Top(s) - 2)]
             ELSE [s1 EXCEPT !.stk = SubSeq(s.stk, 1, Top(s) - 1), !.two = SubSeq(s.two, 1, Top(s) - 1)])
      [] ev = "U" -> ([s1 EXCEPT !.bad = ~(Declared(s) \/ s.g >= 1),
                                 !.why = IF Declared(s) \/ s.g >= 1 THEN "ok" ELSE "undeclared_name"])

NameStep ==
    /\ stage = "scope" /\ cur = <<"started">> /\ ~sc.bad /\ Len(sc.body) < MaxBody
    /\ \E ev \in BodyEvents :
          /\ ev = "C" => Top(sc) > 2
          /\ sc' = ScopeStep(sc, ev)
          /\ Emit(ScopeId(sc'), "", ScopeVerdict(sc'), 0, sc'.why)
    /\ UNCHANGED <<stage, ctx, cur, fd>>

\* the initial programs of the scope machine (no body) are cases too
NameStart ==
    /\ stage = "scope" /\ sc.body = <<>> /\ cur = <<>>
    /\ Emit(ScopeId(sc), "", ScopeVerdict(sc), 0, sc.why)
    /\ cur' = <<"started">>
    /\ UNCHANGED <<stage, ctx, sc, fd>>

\* signature machine: Environment.add_funcs -----------------------------------------------------------
FuncStep ==
    /\ stage = "funcs" /\ Len(fd) < MaxFuncs /\ FuncsOK(fd)
    /\ \E d \in (IF Len(fd) = 2 THEN FDeclU3 ELSE FDeclU) :
          /\ Len(fd) = 2 => (fd[1] \in FDeclU3 /\ fd[2] \in FDeclU3)
          /\ fd' = Append(fd, d)
          /\ Emit("funcs|" \o FuncsTxt(fd') \o "|", "", IF FuncsOK(fd') THEN "accept" ELSE "reject", 0,
                  IF FuncsOK(fd') THEN "ok" ELSE "duplicate_signature")
    /\ UNCHANGED <<stage, ctx, cur, sc>>

Next ==
    \/ ExprStatement \/ Declaration \/ ArrayInit \/ Assignment \/ IncAssignment \/ CallArgument
    \/ BuiltinWrite \/ ReturnValue \/ ReturnNothing \/ Condition \/ Operand \/ IndexLength
    \/ ArrayElement \/ IsCast \/ Call \/ TypeSyntax \/ GlobalDeclaration \/ GlobalArrayInit
    \/ NameStart \/ NameStep \/ FuncStep

Spec == Init /\ [][Next]_vars

-----------------------------------------------------------------------------
(* 10. Sanity of the model itself (checked by TLC in every run)             *)
TypeOK ==
    /\ stage \in {"ctx", "done", "scope", "funcs"}
    /\ sc.bad \in BOOLEAN
    /\ Len(sc.stk) = Len(sc.two)

\* constant-level facts about the lattice, evaluated once
LatticeOK ==
    /\ \A k \in DOMAIN AtomTab : AtomDesc(AtomTab[k][1]) = AtomTab[k][2]
    /\ \A a \in AtomNames : AtomDesc(a).ok
    \* coercible implies castable for scalars, except the literal narrowing int -> byte which is also a cast
    /\ \A a \in AtomNames, T \in Scalars :
          LET d == AtomDesc(a) IN (~IsArr(d.ty) /\ d.ty # "empty" /\ CoercibleS(d, T)) => CastableS(d, T)
    \* a const array never coerces to a mutable one
    /\ \A e \in Scalars : ~Coercible(Var(ArrC(e)), ArrM(e)) /\ Coercible(Var(ArrM(e)), ArrC(e))
    \* R0 is one of the readings
    /\ R0 \in Readings
ASSUME LatticeOK
=============================================================================
